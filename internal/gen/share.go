package gen

import (
	"fmt"

	"verif/internal/sl"
)

var shareLists = [][]string{
	{"lowercase"}, {"lowercase", "trim"}, {"lowercase", "trim", "length"}, {"lowercase", "trim", "hexEncode"},
	{"uppercase"}, {"uppercase", "trim"}, {"trim"}, {"trim", "lowercase"}, {"trim", "lowercase", "length"},
	{"removeNulls", "lowercase"}, {"removeNulls", "lowercase", "trim"}, {"length"}, {"hexEncode"}, {"hexEncode", "length"},
	// a step that fails on most inputs (hexDecode on non-hex text leaves the value as it was): a failed step
	// inside a shared prefix must not poison what later rules read for that prefix
	{"hexDecode"}, {"hexDecode", "lowercase"}, {"hexDecode", "lowercase", "trim"}, {"lowercase", "hexDecode"}, {"lowercase", "hexDecode", "length"},
	{"trim", "hexDecode"}, {"trim", "hexDecode", "uppercase"},
	// round trips: the final value equals the input for some values while an intermediate value differs (what a
	// multiMatch rule must still see, whatever an earlier rule with the same list left in the cache)
	{"uppercase", "lowercase"}, {"lowercase", "uppercase"}, {"hexEncode", "hexDecode"}, {"trim", "uppercase", "lowercase"},
	// lists that differ only in which member of one family stands at a position (an entry filed under the
	// identity of a step must not be handed to its siblings)
	{"trimLeft"}, {"trimRight"}, {"lowercase", "trimLeft"}, {"lowercase", "trimRight"}, {"trimLeft", "length"}, {"trimRight", "length"},
}

var shareNames = []string{"a", "A", "b", "c", "ab", "a", "b", ""}
var shareValues = []string{"X1", "x1", " X1", "X2", "x2 ", "Ab", "aB", "AB ", "", "a\x00B", "Zz", "zZ", "4162", "5a7A "}

// shareLongValues: values of one length that agree in their first and last 70 bytes and differ only in the
// middle (by case and white space): whatever identifies a value in a cache must not sample it.
var shareLongValues = func() []string {
	head := "head-0123456789abcdefghijklmnopqrstuvwxyzABCDEFGHIJKLMNOPQRSTUVWXYZ-head/"
	tail := "/tail-0123456789abcdefghijklmnopqrstuvwxyzABCDEFGHIJKLMNOPQRSTUVWXYZ-tail"
	var out []string
	for _, mid := range []string{"X1  ", "x1  ", " X1 ", "  x1", "Ab  ", "aB  ", "4162", "5a7A"} {
		out = append(out, head+mid+tail, " "+head[1:]+mid+tail[:len(tail)-1]+" ")
	}
	return out
}()

// ShareRequest: few names, many repeats, values differing only by case/space so that wrong sharing shows.
func ShareRequest(r R) *sl.Req {
	req := &sl.Req{Method: "GET", Path: Pick(r, []string{"/s", "/Dir/File.PHP", "/a/b/X1"}), Status: 200}
	if Chance(r, 0.6) {
		// arguments the library extracts itself: their keys and values are substrings of the URI
		req.RawQuery = Pick(r, []string{"a=X1", "a=X1&b=x1", "A=Ab&a=aB&c=X2", "b=Zz&b=zZ", "q=X1&a=X1"})
	}
	vals := shareValues
	if Chance(r, 0.2) {
		vals = shareLongValues
	}
	n := 2 + r.IntN(7)
	for i := 0; i < n; i++ {
		req.Get = append(req.Get, sl.KV{K: Pick(r, shareNames), V: Pick(r, vals)})
	}
	n = r.IntN(4)
	for i := 0; i < n; i++ {
		req.Post = append(req.Post, sl.KV{K: Pick(r, shareNames), V: Pick(r, vals)})
	}
	n = r.IntN(3)
	for i := 0; i < n; i++ {
		req.Headers = append(req.Headers, sl.KV{K: Pick(r, []string{"X-A", "x-a", "X-B"}), V: Pick(r, shareValues)})
	}
	return req
}

func shareTarget(r R, link bool) []sl.Sel {
	if link && Chance(r, 0.6) {
		return []sl.Sel{{Var: Pick(r, []string{"MATCHED_VAR", "MATCHED_VARS", "MATCHED_VAR_NAME", "MATCHED_VARS_NAMES"})}}
	}
	switch r.IntN(12) {
	case 0:
		return []sl.Sel{{Var: "ARGS"}}
	case 1:
		return []sl.Sel{{Var: "ARGS_GET"}}
	case 2:
		return []sl.Sel{{Var: "ARGS", Kind: 1, Key: "a"}}
	case 3:
		return []sl.Sel{{Var: "ARGS_GET"}, {Var: "ARGS_POST"}}
	case 4:
		return []sl.Sel{{Var: "ARGS_NAMES"}}
	case 5:
		return []sl.Sel{{Var: "REQUEST_HEADERS"}}
	case 6:
		return []sl.Sel{{Var: "ARGS_GET", Count: true}, {Var: "ARGS_GET"}}
	case 7:
		return []sl.Sel{{Var: "TX", Kind: 1, Key: "v"}, {Var: "ARGS_GET", Kind: 2, Key: "^[ab]$"}}
	case 8:
		return []sl.Sel{{Var: "ARGS_POST"}, {Var: "ARGS_GET", Kind: 1, Key: "b"}}
	default:
		// the URI family: values that are substrings of one another (shared string data)
		vs := []string{"REQUEST_URI", "REQUEST_URI_RAW", "REQUEST_FILENAME", "REQUEST_BASENAME", "QUERY_STRING", "REQUEST_LINE"}
		out := []sl.Sel{{Var: Pick(r, vs)}}
		if Chance(r, 0.6) {
			out = append(out, sl.Sel{Var: Pick(r, vs)})
		}
		return out
	}
}

func shareOp(r R, tag string) *sl.Op {
	switch r.IntN(6) {
	case 0, 1, 2:
		return &sl.Op{Name: "verifrec", Arg: tag + " " + Pick(r, []string{"true", "contains:x", "eq:x1", "nonempty", "contains:X"})}
	case 3:
		return &sl.Op{Name: "streq", Arg: Pick(r, []string{"x1", "X1", "ab", "2", "3"})}
	case 4:
		return &sl.Op{Name: "contains", Arg: Pick(r, []string{"x", "X", "b", "7"}), Neg: Chance(r, 0.3)}
	default:
		return &sl.Op{Name: "rx", Arg: Pick(r, []string{"^x", "^X", "[0-9]$", "^$"})}
	}
}

// ShareProgram draws a sequence of rules of ONE phase that share full or partial transformation lists
// over the same and different targets, including targets whose content changes during the phase.
func ShareProgram(r R) *sl.Program {
	p := &sl.Program{Engine: "On"}
	phase := 1 + r.IntN(5)
	p.Items = append(p.Items, sl.Item{Rule: &sl.Rule{ID: 1, Phase: 1, Severity: -1, Setvars: []sl.Setvar{{Key: "v", Kind: "=", Val: Pick(r, []string{"X1", " x1", "Ab"})}}}})
	// pick a small family of lists so that sharing is frequent
	fam := make([][]string, 0, 3)
	for i := 0; i < 3; i++ {
		fam = append(fam, Pick(r, shareLists))
	}
	n := 4 + r.IntN(7)
	for i := 0; i < n; i++ {
		id := 100 + i
		rule := &sl.Rule{ID: id, Phase: phase, Severity: -1, Targets: shareTarget(r, false), Trans: Pick(r, fam), Op: shareOp(r, fmt.Sprintf("t%d", id))}
		rule.MultiMatch = Chance(r, 0.2)
		if Chance(r, 0.35) {
			cur := rule
			links := 1 + r.IntN(2)
			for l := 1; l <= links; l++ {
				cur.Chain = &sl.Rule{Phase: phase, Severity: -1, Targets: shareTarget(r, true), Trans: Pick(r, fam), Op: shareOp(r, fmt.Sprintf("t%d_%d", id, l))}
				cur.Chain.MultiMatch = Chance(r, 0.15)
				cur = cur.Chain
			}
		}
		if Chance(r, 0.15) {
			// change TX:v in the middle of the phase (TX is not cached, but its neighbours are)
			rule.Setvars = []sl.Setvar{{Key: "v", Kind: "=", Val: Pick(r, []string{"X2", "x1 ", "zZ"})}}
		}
		p.Items = append(p.Items, sl.Item{Rule: rule})
	}
	return p
}

// Unshare returns a copy of the program in which every rule level has its own identity
// transformation in front of its list, so that no transformation-cache entry can be shared between levels.
func Unshare(p *sl.Program) *sl.Program {
	q := *p
	q.Items = nil
	k := 0
	var cp func(r *sl.Rule) *sl.Rule
	cp = func(r *sl.Rule) *sl.Rule {
		if r == nil {
			return nil
		}
		c := *r
		if len(r.Trans) > 0 {
			c.Trans = append([]string{fmt.Sprintf("verifid%d", k%64)}, r.Trans...)
			k++
		}
		c.Chain = cp(r.Chain)
		return &c
	}
	for _, it := range p.Items {
		ni := it
		ni.Rule = cp(it.Rule)
		q.Items = append(q.Items, ni)
	}
	return &q
}

// CaseVariantProgram / CaseVariantRequest: argument names that differ only in letter case, delivered through
// the query string (so that the library's own parser, with its map iteration, decides their order inside one
// collection entry), selected by string and regex keys written in either case, with counters.
func CaseVariantProgram(r R) *sl.Program {
	p := &sl.Program{Engine: "On"}
	keys := []string{"Ab", "ab", "AB", "ID", "id", "Foo", "foo"}
	n := 3 + r.IntN(5)
	for i := 0; i < n; i++ {
		id := 100 + i
		k := Pick(r, keys)
		var sel sl.Sel
		switch r.IntN(4) {
		case 0:
			sel = sl.Sel{Var: Pick(r, []string{"ARGS_GET", "ARGS", "ARGS_NAMES", "ARGS_GET_NAMES"}), Kind: 1, Key: k}
		case 1:
			sel = sl.Sel{Var: Pick(r, []string{"ARGS_GET", "ARGS"}), Kind: 2, Key: "^" + k + "$"}
		case 2:
			sel = sl.Sel{Var: Pick(r, []string{"ARGS_GET", "ARGS_NAMES"}), Kind: 2, Key: "^" + k[:1]}
		default:
			sel = sl.Sel{Var: "ARGS_GET", Kind: 2, Key: "^" + k + "$", Count: true}
		}
		rule := &sl.Rule{ID: id, Phase: 1 + r.IntN(2), Severity: -1, Targets: []sl.Sel{sel}, Op: &sl.Op{Name: "rx", Arg: "."},
			Setvars: []sl.Setvar{{Key: fmt.Sprintf("n%d", id), Kind: "+", Val: "1"}}}
		if Chance(r, 0.3) {
			rule.Targets = append(rule.Targets, sl.Sel{Var: sel.Var, Kind: 2, Key: "^" + Pick(r, keys) + "$", Excl: true})
		}
		if Chance(r, 0.2) {
			rule.Disruptive, rule.Status = "deny", 403
		}
		p.Items = append(p.Items, sl.Item{Rule: rule})
	}
	return p
}

func CaseVariantRequest(r R) *sl.Req {
	qs := []string{"Ab=1&ab=2", "ab=2&Ab=1&AB=3", "ID=7&id=8", "Foo=x&foo=y&FOO=z", "Ab=1&ID=2&id=3&ab=4", "foo=1&Foo=2&Ab=3"}
	return &sl.Req{Method: "GET", Path: "/cv", Status: 200, RawQuery: Pick(r, qs)}
}
