// Package gen holds the deterministic generators shared by the checks.
package gen

import (
	"math/rand/v2"
	"strings"

	"verif/internal/sl"
)

type R = *rand.Rand

func Pick[T any](r R, xs []T) T { return xs[r.IntN(len(xs))] }

func Chance(r R, p float64) bool { return r.Float64() < p }

// Name pool: small, with case variants, empties and shared names across collections.
var NamePool = []string{"a", "A", "b", "B", "ab", "Ab", "aB", "id", "ID", "Id", "x1", "X1", "r0", "r1", "r2", "R2", "foo", "Foo", "FOO", "q", "", "a.b", "a-b", "a_b"}

var HeaderNames = []string{"X-A", "x-a", "X-B", "User-Agent", "user-agent", "Accept", "X-Id", "x-id", "X-Foo", "Host"}

var CookieNames = []string{"s", "S", "sid", "SID", "a", "A", "foo", "Foo"}

var valueAtoms = []string{"", "a", "A", "b", "ab", "AB", "Ab", "abc", "ABC", "x", "1", "2", "10", "-1", "007", " a ", "a b", "\tz", "z ", "foo", "Foo", "FOO", "bar",
	"attack", "Attack", "ATTACK", "select", "a\x00b", "\x00", "\xff", "a\xffb", "\xc3\x28", "é", "É", "K", "K", "ſ", "%41", "%", "a=b", "a&b", "a;b", "'", "\"", "\\", "\n", "a\nb"}

// Value returns a value string from atoms, concatenations and repeats.
func Value(r R) string {
	switch x := r.IntN(40); {
	case x < 24:
		return Pick(r, valueAtoms)
	case x < 33:
		return Pick(r, valueAtoms) + Pick(r, valueAtoms)
	case x < 38:
		return strings.Repeat(Pick(r, valueAtoms), 1+r.IntN(4))
	default:
		n := r.IntN(6)
		b := make([]byte, n)
		for i := range b {
			b[i] = byte(r.IntN(256))
		}
		return string(b)
	}
}

// AsciiValue returns a printable-ASCII value without separators (safe inside operator arguments).
func AsciiValue(r R) string {
	atoms := []string{"a", "A", "b", "ab", "AB", "abc", "x", "1", "2", "10", "foo", "Foo", "FOO", "bar", "attack", "select", "z9"}
	if Chance(r, 0.3) {
		return Pick(r, atoms) + Pick(r, atoms)
	}
	return Pick(r, atoms)
}

// names whose byte length changes under lower-casing or that are not valid UTF-8
var oddNames = []string{"\xff", "\u212a", "É", "é", "a\xffb", "ſ"}

// KVs draws n pairs from a name pool with repeats (now and then a non-ASCII / non-UTF-8 name).
func KVs(r R, names []string, n int) []sl.KV {
	out := make([]sl.KV, 0, n)
	for i := 0; i < n; i++ {
		k := Pick(r, names)
		if Chance(r, 0.04) {
			k = Pick(r, oddNames)
		}
		out = append(out, sl.KV{K: k, V: Value(r)})
	}
	return out
}

// Request builds a structured request with colliding names across collections.
func Request(r R) *sl.Req {
	req := &sl.Req{Method: Pick(r, []string{"GET", "POST", "PUT"}), Path: Pick(r, []string{"/", "/p", "/a/b.php", "/Index.html"}), Status: Pick(r, []int{200, 200, 404, 500, 302})}
	if Chance(r, 0.3) {
		req.RawQuery = Pick(r, []string{"a=1", "id=7&ID=8", "foo=bar&Foo=Bar", "x1=abc&q=a", "ab=ab&AB=AB"})
	}
	req.Get = KVs(r, NamePool, r.IntN(6))
	req.Post = KVs(r, NamePool, r.IntN(5))
	nh := r.IntN(5)
	for i := 0; i < nh; i++ {
		// header values must not contain CR/LF/NUL to be meaningful, but the API takes any string
		req.Headers = append(req.Headers, sl.KV{K: Pick(r, HeaderNames), V: Value(r)})
	}
	if Chance(r, 0.5) {
		var parts []string
		nc := 1 + r.IntN(4)
		for i := 0; i < nc; i++ {
			v := AsciiValue(r)
			if Chance(r, 0.2) {
				v = ""
			}
			parts = append(parts, Pick(r, CookieNames)+"="+v)
		}
		req.Headers = append(req.Headers, sl.KV{K: Pick(r, []string{"Cookie", "cookie"}), V: strings.Join(parts, "; ")})
	}
	nr := r.IntN(4)
	for i := 0; i < nr; i++ {
		req.RespHeaders = append(req.RespHeaders, sl.KV{K: Pick(r, HeaderNames), V: Value(r)})
	}
	return req
}
