package gen

import (
	"fmt"

	"verif/internal/sl"
)

// Steer returns the selector/operator pair making a rule match iff the request carries ARGS_GET:<name>=1.
func steer(name string) ([]sl.Sel, *sl.Op) {
	return []sl.Sel{{Var: "ARGS_GET", Kind: 1, Key: name}}, &sl.Op{Name: "streq", Arg: "1"}
}

// steerBody: the rule is steered by an argument the library parses out of the request body.
func steerBody(name string) ([]sl.Sel, *sl.Op) {
	return []sl.Sel{{Var: "ARGS_POST", Kind: 1, Key: name}}, &sl.Op{Name: "streq", Arg: "1"}
}

// BodySteered reports whether rules of the program read arguments of a parsed request body.
func BodySteered(p *sl.Program) bool {
	for _, h := range p.Header {
		if h == "SecRequestBodyAccess On" {
			return true
		}
	}
	return false
}

// FlowProgram draws a rule set exercising skip, skipAfter, allow scopes, chains and disruptive actions.
// Every rule (and chain link) is individually steerable from the request; Steers lists the argument names.
func FlowProgram(r R, withDisruptive bool) (*sl.Program, []string) {
	p := &sl.Program{Engine: "On"}
	if Chance(r, 0.25) {
		p.Engine = "DetectionOnly"
	}
	var steers []string
	// half of the programs read part of their steering arguments from a parsed request body: whatever allow, skip
	// and the engine mode do to rules, the data of the request stays visible to the rules that do run
	body := Chance(r, 0.5)
	if body {
		p.Header = append(p.Header, "SecRequestBodyAccess On")
	}
	// a transaction may switch its own engine mode: what allow/deny do follows the mode of the transaction, not
	// the mode the WAF was configured with
	if (p.Engine == "DetectionOnly" && Chance(r, 0.6)) || (p.Engine == "On" && Chance(r, 0.12)) {
		mode := "On"
		if p.Engine == "On" {
			mode = "DetectionOnly"
		}
		steers = append(steers, "eng")
		sw := &sl.Rule{ID: 90, Phase: 1 + r.IntN(2), Severity: -1, Disruptive: "pass", Ctl: []string{"ruleEngine=" + mode}}
		sw.Targets, sw.Op = steer("eng")
		p.Items = append(p.Items, sl.Item{Rule: sw})
	}
	n := 6 + r.IntN(9)
	markers := []string{"M1", "M2", "M3"}
	// choose phases in non-decreasing runs? No: configuration order is independent of phase.
	for i := 0; i < n; i++ {
		id := 100 + i
		phase := 1 + r.IntN(5)
		name := fmt.Sprintf("r%d", id)
		steers = append(steers, name)
		rule := &sl.Rule{ID: id, Phase: phase, Severity: -1}
		rule.Targets, rule.Op = steer(name)
		if body && phase >= 2 && Chance(r, 0.5) {
			rule.Targets, rule.Op = steerBody(name)
		}
		if Chance(r, 0.15) {
			// always-matching rule
			rule.Targets, rule.Op = nil, nil
			steers = steers[:len(steers)-1]
		}
		if rule.Op != nil && Chance(r, 0.3) {
			cur := rule
			links := 1 + r.IntN(3)
			for l := 1; l <= links; l++ {
				ln := fmt.Sprintf("c%d_%d", id, l)
				steers = append(steers, ln)
				link := &sl.Rule{Phase: phase, Severity: -1}
				link.Targets, link.Op = steer(ln)
				if body && phase >= 2 && Chance(r, 0.4) {
					link.Targets, link.Op = steerBody(ln)
				}
				if Chance(r, 0.5) {
					link.Setvars = []sl.Setvar{{Key: fmt.Sprintf("l%d_%d", id, l), Kind: "+", Val: "1"}}
				}
				cur.Chain = link
				cur = link
			}
		}
		rule.Setvars = []sl.Setvar{{Key: fmt.Sprintf("n%d", id), Kind: "+", Val: "1"}}
		switch x := r.IntN(20); {
		case x < 4:
			rule.Skip = 1 + r.IntN(4)
		case x < 8:
			rule.SkipAfter = Pick(r, markers)
		case x < 10 && phase != 5:
			rule.Disruptive = "allow"
		case x < 12:
			rule.Disruptive = "allow:phase"
		case x < 14 && phase != 5:
			rule.Disruptive = "allow:request"
		case x < 16 && withDisruptive:
			rule.Disruptive = Pick(r, []string{"deny", "drop", "redirect", "block", "pass"})
			if rule.Disruptive == "redirect" {
				rule.Redirect = "http://example.com/x"
			}
			if Chance(r, 0.5) {
				rule.Status = Pick(r, []int{401, 403, 404, 500, 302, 301})
				rule.StatusLast = Chance(r, 0.5)
			}
		}
		if rule.Disruptive != "" && Chance(r, 0.15) {
			// an earlier disruptive action in the same list is replaced by the last one, argument and all
			rule.Overridden = Pick(r, []string{"pass", "deny", "allow:phase", "allow:request", "allow", "block"})
		}
		p.Items = append(p.Items, sl.Item{Rule: rule})
		// markers are placed where no skip window can reach them: only directly after a rule that has no skip,
		// and never within 4 rules after a rule of the same... simpler: placed, and the model flags the rare overlap as ambiguous.
		if Chance(r, 0.2) {
			p.Items = append(p.Items, sl.Item{Marker: Pick(r, markers)})
		}
	}
	// Whether a SecMarker counts as one of the "next N rules" of skip:N is not settled by the statement, and the
	// model flags a marker inside a skip window as ambiguous. Most programs therefore shorten a skip count so
	// that its window ends before the next marker (the remaining programs keep the overlap; they still feed the
	// invariant monitors).
	if Chance(r, 0.8) {
		for i, it := range p.Items {
			if it.Rule == nil || it.Rule.Skip == 0 {
				continue
			}
			room, marker := 0, false
			for _, nx := range p.Items[i+1:] {
				if nx.Marker != "" {
					marker = true
					break
				}
				if nx.Rule != nil && nx.Rule.Phase == it.Rule.Phase {
					room++
				}
			}
			if marker && it.Rule.Skip > room {
				it.Rule.Skip = room
			}
		}
	}
	// closing probes: an always-firing rule at the end of every phase shows whether evaluation reached the end
	for ph := 1; ph <= 5; ph++ {
		p.Items = append(p.Items, sl.Item{Rule: &sl.Rule{ID: 900 + ph, Phase: ph, Severity: -1, Setvars: []sl.Setvar{{Key: fmt.Sprintf("end%d", ph), Kind: "=", Val: "1"}}}})
	}
	if withDisruptive && Chance(r, 0.4) {
		ph := 1 + r.IntN(4)
		p.Defaults = append(p.Defaults, sl.DefaultAction{Phase: ph, Disruptive: Pick(r, []string{"deny", "pass", "drop"}), Status: Pick(r, []int{0, 403, 418})})
	}
	return p, steers
}

// SteerRequest builds a request making exactly the named rules match.
func SteerRequest(on []string) *sl.Req {
	req := &sl.Req{Method: "GET", Path: "/", Status: 200}
	for _, n := range on {
		req.Get = append(req.Get, sl.KV{K: n, V: "1"})
	}
	return req
}

// Subset draws a random subset (each element with probability p).
func Subset(r R, xs []string, p float64) []string {
	var out []string
	for _, x := range xs {
		if Chance(r, p) {
			out = append(out, x)
		}
	}
	return out
}
