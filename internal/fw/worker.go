package fw

import (
	"bufio"
	"encoding/json"
	"fmt"
	"hash/fnv"
	"math/rand/v2"
	"os"
	"runtime"
	"runtime/debug"
	"strings"
	"sync"
)

// W is the worker-side context of one batch.
type W struct {
	Prop    *Prop
	Tier    Tier
	Seed    int64
	Flavour string
	Batch   Batch
	Rng     *rand.Rand
	Scratch string

	mu       sync.Mutex
	out      *bufio.Writer
	outFile  *os.File
	sum      Summary
	nt       map[uint64]struct{}
	nviol    int
	perClass map[string]int
	trace    *os.File // when set, every case is logged (and synced) before it is executed
}

const maxViolationsPerClass = 3
const maxSamples = 3
const maxNTHashes = 200000

// NewRng derives a deterministic PRNG from (seed, property, salt).
func NewRng(seed int64, prop string, salt uint64) *rand.Rand {
	h := fnv.New64a()
	fmt.Fprintf(h, "%d|%s|%d", seed, prop, salt)
	s := h.Sum64()
	return rand.New(rand.NewPCG(s, s^0x9e3779b97f4a7c15))
}

func newW(p *Prop, tier Tier, seed int64, flavour string, b Batch, outPath, scratch, tracePath string) (*W, error) {
	f, err := os.Create(outPath)
	if err != nil {
		return nil, err
	}
	w := &W{Prop: p, Tier: tier, Seed: seed, Flavour: flavour, Batch: b, Scratch: scratch,
		Rng: NewRng(seed, p.ID, uint64(b.Index)), out: bufio.NewWriter(f), outFile: f,
		nt: map[uint64]struct{}{}, perClass: map[string]int{}}
	w.sum.Counters = map[string]int64{}
	w.sum.Maxima = map[string]int64{}
	w.sum.Sets = map[string]map[string]bool{}
	if tracePath != "" {
		w.trace, err = os.Create(tracePath)
		if err != nil {
			return nil, err
		}
	}
	return w, nil
}

func (w *W) emit(l line) {
	b, _ := json.Marshal(l)
	w.out.Write(b)
	w.out.WriteByte('\n')
}

// Eval counts executions judged by an oracle.
func (w *W) Eval(n int) { w.mu.Lock(); w.sum.Evaluations += int64(n); w.mu.Unlock() }

// Count adds to a named counter.
func (w *W) Count(name string, n int) { w.mu.Lock(); w.sum.Counters[name] += int64(n); w.mu.Unlock() }

// Max records a maximum.
func (w *W) Max(name string, v int64) {
	w.mu.Lock()
	if v > w.sum.Maxima[name] {
		w.sum.Maxima[name] = v
	}
	w.mu.Unlock()
}

// Cover adds a member to a named set (names covered, kinds seen …).
func (w *W) Cover(set, member string) {
	w.mu.Lock()
	m := w.sum.Sets[set]
	if m == nil {
		m = map[string]bool{}
		w.sum.Sets[set] = m
	}
	if len(m) < 5000 {
		m[member] = true
	}
	w.mu.Unlock()
}

// Hash is a structural hash of any JSON-marshalable value or string.
func Hash(v any) uint64 {
	h := fnv.New64a()
	switch x := v.(type) {
	case string:
		h.Write([]byte(x))
	case []byte:
		h.Write(x)
	default:
		b, _ := json.Marshal(v)
		h.Write(b)
	}
	return h.Sum64()
}

// Nontrivial marks a case (by structural hash) as non-trivial by the property's rule.
func (w *W) Nontrivial(h uint64) {
	w.mu.Lock()
	w.nt[h] = struct{}{}
	w.mu.Unlock()
}

// Sample keeps a few cases for the evidence file.
func (w *W) Sample(v any) {
	w.mu.Lock()
	if len(w.sum.Samples) < maxSamples {
		w.sum.Samples = append(w.sum.Samples, mustJSON(v))
	}
	w.mu.Unlock()
}

// WantSample reports whether more samples are wanted (to avoid building them needlessly).
func (w *W) WantSample() bool {
	w.mu.Lock()
	defer w.mu.Unlock()
	return len(w.sum.Samples) < maxSamples
}

// Trace logs the case about to be executed when trace mode is on (crash attribution).
func (w *W) Trace(c any) {
	if w.trace == nil {
		return
	}
	b, _ := json.Marshal(c)
	w.trace.Truncate(0)
	w.trace.WriteAt(append(b, '\n'), 0)
}

// Tracing reports whether trace mode is on.
func (w *W) Tracing() bool { return w.trace != nil }

// Violation reports a refuting observation.
func (w *W) Violation(class, monitor string, c, expected, observed any, detail string) {
	w.mu.Lock()
	defer w.mu.Unlock()
	w.nviol++
	w.sum.Counters["violations_raw"]++
	w.perClass[class]++
	if w.perClass[class] > maxViolationsPerClass {
		return
	}
	b := w.Batch
	v := &Violation{Property: w.Prop.ID, Class: class, Monitor: monitor, Case: mustJSON(c), Expected: mustJSON(expected),
		Observed: mustJSON(observed), Detail: detail, Seed: w.Seed, Tier: w.Tier, Flavour: w.Flavour, Batch: &b}
	w.emit(line{T: "viol", Viol: v})
	w.out.Flush()
}

// Record emits a datum for the driver-side Finish step.
func (w *W) Record(key string, v any) {
	w.mu.Lock()
	defer w.mu.Unlock()
	w.emit(line{T: "rec", Rec: &Record{Key: key, Flavour: w.Flavour, Batch: w.Batch.Index, Value: mustJSON(v)}})
}

// PanicInfo describes a recovered panic.
type PanicInfo struct {
	Value string `json:"value"`
	Frame string `json:"frame"` // top-most coraza frame
	Stack string `json:"stack,omitempty"`
}

// Guard runs f and converts a panic into a PanicInfo (nil if f returned normally).
func Guard(f func()) (pi *PanicInfo) {
	defer func() {
		if r := recover(); r != nil {
			st := string(debug.Stack())
			pi = &PanicInfo{Value: fmt.Sprint(r), Frame: TopCorazaFrame(st), Stack: trimStack(st)}
		}
	}()
	f()
	return nil
}

// TopCorazaFrame finds the first frame inside the coraza module in a stack dump.
func TopCorazaFrame(stack string) string {
	for _, ln := range strings.Split(stack, "\n") {
		ln = strings.TrimSpace(ln)
		if strings.HasPrefix(ln, "github.com/corazawaf/coraza/v3") && !strings.Contains(ln, "/internal/verifhook") && !strings.Contains(ln, "/experimental/verifapi") {
			if i := strings.LastIndex(ln, "("); i > 0 {
				ln = ln[:i]
			}
			return strings.TrimPrefix(ln, "github.com/corazawaf/coraza/v3")
		}
	}
	return "?"
}

func trimStack(st string) string {
	lines := strings.Split(st, "\n")
	if len(lines) > 40 {
		lines = lines[:40]
	}
	return strings.Join(lines, "\n")
}

func (w *W) finish() {
	w.mu.Lock()
	defer w.mu.Unlock()
	w.sum.NontrivialN = int64(len(w.nt))
	n := 0
	for h := range w.nt {
		if n >= maxNTHashes {
			break
		}
		w.sum.Nontrivial = append(w.sum.Nontrivial, h)
		n++
	}
	w.sum.Done = true
	s := w.sum
	w.emit(line{T: "sum", Sum: &s})
	w.out.Flush()
	w.outFile.Close()
}

// WorkerMain is the entry point of `verif work …`.
func WorkerMain(args []string) int {
	var id, tier, flavour, out, scratch, batchJSON, replay, trace string
	var seed int64
	for i := 0; i+1 < len(args); i += 2 {
		switch args[i] {
		case "--id":
			id = args[i+1]
		case "--tier":
			tier = args[i+1]
		case "--flavour":
			flavour = args[i+1]
		case "--out":
			out = args[i+1]
		case "--scratch":
			scratch = args[i+1]
		case "--batch":
			batchJSON = args[i+1]
		case "--replay":
			replay = args[i+1]
		case "--trace":
			trace = args[i+1]
		case "--seed":
			fmt.Sscan(args[i+1], &seed)
		}
	}
	p := Lookup(id)
	if p == nil {
		fmt.Fprintln(os.Stderr, "unknown property", id)
		return 3
	}
	var b Batch
	if batchJSON != "" {
		if err := json.Unmarshal([]byte(batchJSON), &b); err != nil {
			fmt.Fprintln(os.Stderr, "bad batch:", err)
			return 3
		}
	}
	if b.GOMAXPROCS > 0 {
		runtime.GOMAXPROCS(b.GOMAXPROCS)
	}
	w, err := newW(p, Tier(tier), seed, flavour, b, out, scratch, trace)
	if err != nil {
		fmt.Fprintln(os.Stderr, err)
		return 3
	}
	if replay != "" {
		data, err := os.ReadFile(replay)
		if err != nil {
			fmt.Fprintln(os.Stderr, err)
			return 3
		}
		var v Violation
		if err := json.Unmarshal(data, &v); err != nil {
			fmt.Fprintln(os.Stderr, err)
			return 3
		}
		if len(v.Case) > 0 && p.Replay != nil {
			p.Replay(w, v.Case)
		} else if v.Batch != nil {
			w.Batch = *v.Batch
			w.Rng = NewRng(v.Seed, p.ID, uint64(v.Batch.Index))
			w.Seed = v.Seed
			w.Tier = v.Tier
			p.Run(w, *v.Batch)
		}
	} else {
		p.Run(w, b)
	}
	w.finish()
	return 0
}
