package fw

import (
	"bufio"
	"bytes"
	"crypto/sha1"
	"encoding/hex"
	"encoding/json"
	"fmt"
	"os"
	"os/exec"
	"path/filepath"
	"regexp"
	"runtime"
	"sort"
	"strconv"
	"strings"
	"sync"
	"time"
)

// D is the driver-side context handed to Prop.Finish.
type D struct {
	Prop    *Prop
	Tier    Tier
	Seed    int64
	Records []Record
	viols   []*Violation
	counts  map[string]int64
}

func (d *D) Violation(class, monitor string, c, expected, observed any, detail string) {
	d.viols = append(d.viols, &Violation{Property: d.Prop.ID, Class: class, Monitor: monitor, Case: mustJSON(c),
		Expected: mustJSON(expected), Observed: mustJSON(observed), Detail: detail, Seed: d.Seed, Tier: d.Tier, Flavour: "driver"})
}
func (d *D) Count(name string, n int) { d.counts[name] += int64(n) }

type knownFinding struct {
	Status   string `json:"status"`
	Property string `json:"property"`
	ID       string `json:"id,omitempty"`
	Class    string `json:"class,omitempty"`
	Commit   string `json:"commit,omitempty"`
	What     string `json:"what"`
}

var flavourFlags = map[string][]string{
	"plain":       {"-tags", "verif"},
	"race":        {"-tags", "verif", "-race"},
	"nomemo":      {"-tags", "verif coraza.no_memoize"},
	"mphase-race": {"-tags", "verif coraza.rule.multiphase_evaluation", "-race"},
	"prefilter":   {"-tags", "verif coraza.rule.rx_prefilter"},
	"csargs":      {"-tags", "verif coraza.rule.case_sensitive_args_keys"},
	"nomline":     {"-tags", "verif coraza.rule.no_regex_multiline"},
}

func verifRoot() string {
	if r := os.Getenv("VERIF_ROOT"); r != "" {
		return r
	}
	exe, err := os.Executable()
	if err == nil {
		// bin/<id>/verif.<flavour> → root is two levels above
		return filepath.Dir(filepath.Dir(filepath.Dir(exe)))
	}
	return "/verif"
}

func goEnv() []string {
	env := os.Environ()
	out := env[:0:0]
	for _, e := range env {
		if strings.HasPrefix(e, "GOFLAGS=") || strings.HasPrefix(e, "GOPROXY=") || strings.HasPrefix(e, "GOMAXPROCS=") || strings.HasPrefix(e, "GORACE=") {
			continue
		}
		out = append(out, e)
	}
	return append(out, "GOFLAGS=-mod=mod", "GOPROXY=off")
}

// altModfile prepares go.alt.mod/go.alt.sum pointing the coraza replace directive at $VERIF_REPO
// (used only for development and sensitivity drills against a scratch worktree; registered
// commands never set it and therefore always build /repo's working tree).
func altModfile(root, binDir string) (string, error) {
	repo := os.Getenv("VERIF_REPO")
	if repo == "" || repo == "/repo" {
		return "", nil
	}
	data, err := os.ReadFile(filepath.Join(root, "go.mod"))
	if err != nil {
		return "", err
	}
	alt := strings.Replace(string(data), "=> /repo", "=> "+repo, 1)
	modPath := filepath.Join(binDir, "go.alt.mod")
	if err := os.WriteFile(modPath, []byte(alt), 0o644); err != nil {
		return "", err
	}
	sum, _ := os.ReadFile(filepath.Join(root, "go.sum"))
	os.WriteFile(filepath.Join(binDir, "go.alt.sum"), sum, 0o644)
	return modPath, nil
}

func buildFlavour(root, id, flavour string) (string, error) {
	flags, ok := flavourFlags[flavour]
	if !ok {
		return "", fmt.Errorf("unknown flavour %q", flavour)
	}
	binDir := filepath.Join(root, "bin", id+os.Getenv("VERIF_BINTAG"))
	os.MkdirAll(binDir, 0o755)
	bin := filepath.Join(binDir, "verif."+flavour)
	args := append([]string{"build"}, flags...)
	if mf, err := altModfile(root, binDir); err != nil {
		return "", err
	} else if mf != "" {
		args = append(args, "-modfile="+mf)
	}
	args = append(args, "-o", bin, "./cmd/verif")
	cmd := exec.Command("go", args...)
	cmd.Dir = root
	cmd.Env = goEnv()
	out, err := cmd.CombinedOutput()
	if err != nil {
		return "", fmt.Errorf("go build (%s): %v\n%s", flavour, err, out)
	}
	return bin, nil
}

type batchResult struct {
	batch    Batch
	exit     int
	timedOut bool
	sum      *Summary
	viols    []*Violation
	recs     []Record
	logTail  string
	raceLogs []string
	wall     time.Duration
}

func runBatch(root, bin string, p *Prop, tier Tier, seed int64, b Batch, scratch string, replay string, trace bool) *batchResult {
	res := &batchResult{batch: b}
	tag := fmt.Sprintf("b%04d", b.Index)
	if trace {
		tag += "t"
	}
	outPath := filepath.Join(scratch, tag+".jsonl")
	logPath := filepath.Join(scratch, tag+".log")
	wscratch := filepath.Join(scratch, tag+".d")
	os.MkdirAll(wscratch, 0o755)
	bj, _ := json.Marshal(b)
	to := b.TimeoutS
	if to <= 0 {
		to = 900
	}
	args := []string{"-s", "QUIT", "-k", "20", strconv.Itoa(to), bin, "work", "--id", p.ID, "--tier", string(tier), "--seed", strconv.FormatInt(seed, 10),
		"--flavour", b.Flavour, "--out", outPath, "--scratch", wscratch, "--batch", string(bj)}
	if replay != "" {
		args = append(args, "--replay", replay)
	}
	if trace {
		args = append(args, "--trace", filepath.Join(scratch, tag+".cur"))
	}
	cmd := exec.Command("timeout", args...)
	cmd.Dir = wscratch
	env := goEnv()
	racePrefix := filepath.Join(scratch, tag+".race")
	if strings.Contains(b.Flavour, "race") {
		env = append(env, "GORACE=halt_on_error=0 log_path="+racePrefix)
	}
	if b.GOMAXPROCS > 0 {
		env = append(env, "GOMAXPROCS="+strconv.Itoa(b.GOMAXPROCS))
	}
	env = append(env, "TMPDIR="+wscratch, "GOMEMLIMIT=6GiB")
	cmd.Env = env
	lf, _ := os.Create(logPath)
	cmd.Stdout, cmd.Stderr = lf, lf
	t0 := time.Now()
	err := cmd.Run()
	res.wall = time.Since(t0)
	lf.Close()
	if err != nil {
		if ee, ok := err.(*exec.ExitError); ok {
			res.exit = ee.ExitCode()
		} else {
			res.exit = 127
		}
	}
	if res.exit == 124 || res.exit == 137 {
		res.timedOut = true
	}
	if f, err := os.Open(outPath); err == nil {
		sc := bufio.NewScanner(f)
		sc.Buffer(make([]byte, 1<<20), 1<<28)
		for sc.Scan() {
			var l line
			if json.Unmarshal(sc.Bytes(), &l) != nil {
				continue
			}
			switch l.T {
			case "viol":
				res.viols = append(res.viols, l.Viol)
			case "rec":
				res.recs = append(res.recs, *l.Rec)
			case "sum":
				res.sum = l.Sum
			}
		}
		f.Close()
	}
	if data, err := os.ReadFile(logPath); err == nil {
		if len(data) > 1<<16 {
			// keep head (where the fatal message is) and tail
			data = append(append(data[:1<<15:1<<15], []byte("\n…\n")...), data[len(data)-(1<<15):]...)
		}
		res.logTail = string(data)
	}
	if m, _ := filepath.Glob(racePrefix + ".*"); len(m) > 0 {
		res.raceLogs = m
	}
	return res
}

var reLineNo = regexp.MustCompile(`:\d+( \+0x[0-9a-f]+)?$`)

// RaceReport is one de-duplicated race report.
type RaceReport struct {
	Key    string `json:"key"`
	Coraza bool   `json:"coraza_frame"`
	Text   string `json:"text"`
	Count  int    `json:"count"`
}

// parseRaceLog splits a race-detector log into reports and derives a de-duplication key:
// the first coraza frames of the two conflicting stacks, with line numbers stripped.
func parseRaceLog(data string) []RaceReport {
	var reps []RaceReport
	blocks := strings.Split(data, "==================")
	for _, blk := range blocks {
		if !strings.Contains(blk, "WARNING: DATA RACE") {
			continue
		}
		// split into the access sections
		var keys []string
		secs := regexp.MustCompile(`(?m)^(Write|Read|Previous write|Previous read|Atomic|Previous atomic)[^\n]*\n`).Split(blk, -1)
		for _, s := range secs[1:] {
			// stop at goroutine creation part
			if i := strings.Index(s, "\nGoroutine "); i >= 0 {
				s = s[:i]
			}
			k := "?"
			for _, ln := range strings.Split(s, "\n") {
				fn := strings.TrimSpace(ln)
				if !strings.HasSuffix(fn, "()") || strings.HasPrefix(ln, "      ") {
					continue
				}
				fn = strings.TrimSuffix(fn, "()")
				if strings.Contains(fn, "corazawaf/coraza/v3") && !strings.Contains(fn, "verifhook") {
					k = strings.TrimPrefix(fn, "github.com/corazawaf/coraza/v3")
					break
				}
			}
			keys = append(keys, k)
			if len(keys) == 2 {
				break
			}
		}
		sort.Strings(keys)
		key := strings.Join(keys, " | ")
		cz := strings.Contains(blk, "corazawaf/coraza/v3")
		txt := blk
		if len(txt) > 6000 {
			txt = txt[:6000]
		}
		reps = append(reps, RaceReport{Key: key, Coraza: cz, Text: txt, Count: 1})
	}
	return reps
}

var reFatal = regexp.MustCompile(`(?m)^(fatal error: .*|panic: .*|unexpected fault address.*|SIGSEGV.*)$`)

func classifyCrash(log string) (class, detail string) {
	m := reFatal.FindString(log)
	if m == "" {
		return "", ""
	}
	idx := strings.Index(log, m)
	rest := log[idx:]
	frame := TopCorazaFrame(rest)
	kind := "panic"
	if strings.HasPrefix(m, "fatal error") {
		kind = "fatal"
	}
	msg := m
	if len(msg) > 120 {
		msg = msg[:120]
	}
	if len(rest) > 5000 {
		rest = rest[:5000]
	}
	return kind + ":" + frame, msg + "\n" + rest
}

// DriverMain is the entry point of `verif drive <id> [--tier t] [--replay file]`.
func DriverMain(args []string) int {
	t0 := time.Now()
	root := verifRoot()
	if len(args) < 1 {
		fmt.Fprintln(os.Stderr, "usage: verif drive <id> [--tier quick|thorough] [--replay file]")
		return 3
	}
	id := args[0]
	tier := Tier(os.Getenv("VERIF_TIER"))
	replay := ""
	for i := 1; i < len(args); i++ {
		switch args[i] {
		case "--tier":
			if i+1 < len(args) {
				tier = Tier(args[i+1])
				i++
			}
		case "--replay":
			if i+1 < len(args) {
				replay = args[i+1]
				i++
			}
		}
	}
	if tier != Thorough {
		tier = Quick
	}
	seed := int64(1)
	if s := os.Getenv("VERIF_SEED"); s != "" {
		if v, err := strconv.ParseInt(s, 10, 64); err == nil {
			seed = v
		}
	}
	p := Lookup(id)
	if p == nil {
		fmt.Fprintf(os.Stderr, "unknown property %s\n", id)
		return 3
	}
	scratchBase := os.Getenv("VERIF_SCRATCH")
	if scratchBase == "" {
		scratchBase = "/var/tmp/verif-scratch"
	}
	scratch := filepath.Join(scratchBase, fmt.Sprintf("%s-%d", id, os.Getpid()))
	os.RemoveAll(scratch)
	if err := os.MkdirAll(scratch, 0o755); err != nil {
		fmt.Printf("INCONCLUSIVE property=%s reason=scratch-dir:%v\n", id, err)
		return 2
	}
	keep := os.Getenv("VERIF_KEEP_SCRATCH") != ""
	defer func() {
		if !keep {
			os.RemoveAll(scratch)
		}
	}()

	var batches []Batch
	var replayViol *Violation
	if replay != "" {
		data, err := os.ReadFile(replay)
		if err != nil {
			fmt.Fprintln(os.Stderr, err)
			return 3
		}
		replayViol = &Violation{}
		if err := json.Unmarshal(data, replayViol); err != nil {
			fmt.Fprintln(os.Stderr, err)
			return 3
		}
		fl := replayViol.Flavour
		if fl == "" || fl == "driver" {
			fl = "plain"
		}
		b := Batch{Index: 0, Flavour: fl}
		if replayViol.Batch != nil {
			b = *replayViol.Batch
		}
		batches = []Batch{b}
		abs, _ := filepath.Abs(replay)
		replay = abs
	} else {
		batches = p.Plan(tier, seed)
		// development aid only (never set by registered commands): run just the first N batches
		if s := os.Getenv("VERIF_DEV_BATCHES"); s != "" {
			if n, err := strconv.Atoi(s); err == nil && n > 0 && n < len(batches) {
				batches = batches[:n]
			}
		}
	}

	// Build every flavour needed, from /repo's current working tree.
	bins := map[string]string{}
	for _, b := range batches {
		if _, ok := bins[b.Flavour]; ok {
			continue
		}
		bin, err := buildFlavour(root, id, b.Flavour)
		if err != nil {
			fmt.Println(err)
			fmt.Printf("INCONCLUSIVE property=%s reason=build-failed flavour=%s\n", id, b.Flavour)
			return 2
		}
		bins[b.Flavour] = bin
	}
	buildWall := time.Since(t0)

	// Run batches with a CPU-weighted semaphore.
	ncpu := runtime.NumCPU()
	if s := os.Getenv("VERIF_JOBS"); s != "" {
		if v, err := strconv.Atoi(s); err == nil && v > 0 {
			ncpu = v
		}
	}
	results := make([]*batchResult, len(batches))
	var mu sync.Mutex
	cond := sync.NewCond(&mu)
	free := ncpu
	var wg sync.WaitGroup
	for i, b := range batches {
		wt := b.GOMAXPROCS
		if wt <= 0 {
			wt = 1
		}
		if wt > ncpu {
			wt = ncpu
		}
		mu.Lock()
		for free < wt {
			cond.Wait()
		}
		free -= wt
		mu.Unlock()
		wg.Add(1)
		go func(i int, b Batch, wt int) {
			defer wg.Done()
			r := runBatch(root, bins[b.Flavour], p, tier, seed, b, scratch, replay, false)
			if r.timedOut {
				// a watchdog firing is inconclusive; re-run once in a fresh child
				r2 := runBatch(root, bins[b.Flavour], p, tier, seed, b, scratch, replay, false)
				if !r2.timedOut {
					r = r2
				}
			} else if r.sum == nil && r.exit != 0 && replay == "" {
				// crashed: re-run in trace mode so that the killing case is on disk
				rt := runBatch(root, bins[b.Flavour], p, tier, seed, b, scratch, replay, true)
				if cur, err := os.ReadFile(filepath.Join(scratch, fmt.Sprintf("b%04dt.cur", b.Index))); err == nil && rt.sum == nil {
					r.logTail += "\n--- case being executed when the traced re-run died ---\n" + string(cur)
				}
			}
			results[i] = r
			mu.Lock()
			free += wt
			cond.Broadcast()
			mu.Unlock()
		}(i, b, wt)
	}
	wg.Wait()

	// Aggregate.
	total := Summary{Counters: map[string]int64{}, Maxima: map[string]int64{}, Sets: map[string]map[string]bool{}}
	nt := map[uint64]struct{}{}
	var ntOverflow int64
	var viols []*Violation
	var inconclusive []string
	d := &D{Prop: p, Tier: tier, Seed: seed, counts: map[string]int64{}}
	races := map[string]*RaceReport{}
	flavoursUsed := map[string]bool{}
	for _, r := range results {
		flavoursUsed[r.batch.Flavour] = true
		viols = append(viols, r.viols...)
		d.Records = append(d.Records, r.recs...)
		if r.sum != nil {
			total.Evaluations += r.sum.Evaluations
			for k, v := range r.sum.Counters {
				total.Counters[k] += v
			}
			for k, v := range r.sum.Maxima {
				if v > total.Maxima[k] {
					total.Maxima[k] = v
				}
			}
			for k, s := range r.sum.Sets {
				if total.Sets[k] == nil {
					total.Sets[k] = map[string]bool{}
				}
				for m := range s {
					total.Sets[k][m] = true
				}
			}
			for _, h := range r.sum.Nontrivial {
				nt[h] = struct{}{}
			}
			if r.sum.NontrivialN > int64(len(r.sum.Nontrivial)) {
				ntOverflow += r.sum.NontrivialN - int64(len(r.sum.Nontrivial))
			}
			if len(total.Samples) < 6 {
				for _, s := range r.sum.Samples {
					if len(total.Samples) < 6 {
						total.Samples = append(total.Samples, s)
					}
				}
			}
		}
		for _, rl := range r.raceLogs {
			data, _ := os.ReadFile(rl)
			for _, rep := range parseRaceLog(string(data)) {
				total.Counters["race_reports_raw"]++
				if ex, ok := races[rep.Key]; ok {
					ex.Count++
				} else {
					rr := rep
					races[rep.Key] = &rr
				}
			}
		}
		if r.sum == nil || !r.sum.Done {
			if r.timedOut {
				inconclusive = append(inconclusive, fmt.Sprintf("batch %d: wall-clock watchdog fired twice", r.batch.Index))
				continue
			}
			class, detail := classifyCrash(r.logTail)
			if class == "" {
				inconclusive = append(inconclusive, fmt.Sprintf("batch %d: worker exit %d without summary: %s", r.batch.Index, r.exit, tail(r.logTail, 400)))
				continue
			}
			b := r.batch
			viols = append(viols, &Violation{Property: p.ID, Class: "crash:" + class, Monitor: "process-exit", Detail: detail, Seed: seed, Tier: tier, Flavour: b.Flavour, Batch: &b})
		}
	}
	for _, rr := range races {
		if rr.Coraza {
			viols = append(viols, &Violation{Property: p.ID, Class: "race:" + rr.Key, Monitor: "go-race-detector", Detail: rr.Text,
				Observed: mustJSON(map[string]int{"reports": rr.Count}), Seed: seed, Tier: tier, Flavour: "race"})
		} else {
			total.Counters["race_reports_without_coraza_frame"] += int64(rr.Count)
		}
	}
	total.Counters["race_reports_dedup"] = int64(len(races))
	if p.Finish != nil && replay == "" {
		p.Finish(d)
		viols = append(viols, d.viols...)
		for k, v := range d.counts {
			total.Counters[k] += v
		}
	}

	// Known findings.
	var known []knownFinding
	if data, err := os.ReadFile(filepath.Join(root, "known_findings.json")); err == nil {
		if err := json.Unmarshal(data, &known); err != nil {
			fmt.Printf("INCONCLUSIVE property=%s reason=known_findings.json-unreadable:%v\n", id, err)
			return 2
		}
	}
	knownByClass := map[string]*knownFinding{}
	for i := range known {
		k := &known[i]
		if k.Status == "known" && k.Property == id && k.Class != "" {
			knownByClass[k.Class] = k
		}
	}
	knownSeen := map[string]int{}
	var unlisted []*Violation
	for _, v := range viols {
		if k, ok := knownByClass[v.Class]; ok {
			knownSeen[k.Class]++
			continue
		}
		unlisted = append(unlisted, v)
	}
	classes := make([]string, 0, len(knownSeen))
	for c := range knownSeen {
		classes = append(classes, c)
	}
	sort.Strings(classes)
	for _, c := range classes {
		fmt.Printf("KNOWN-FINDING: property=%s %s (%s; observed %d time(s) in this run)\n", id, knownByClass[c].What, knownByClass[c].ID, knownSeen[c])
	}

	// Write replays and print violation lines (one per class, at most 10).
	printed := map[string]bool{}
	nprinted := 0
	repDir := filepath.Join(root, "replays", id)
	for _, v := range unlisted {
		if printed[v.Class] {
			continue
		}
		printed[v.Class] = true
		if nprinted >= 10 {
			continue
		}
		nprinted++
		os.MkdirAll(repDir, 0o755)
		data, _ := json.MarshalIndent(v, "", " ")
		sum := sha1.Sum(data)
		path := filepath.Join(repDir, hex.EncodeToString(sum[:8])+".json")
		os.WriteFile(path, data, 0o644)
		rel, _ := filepath.Rel(root, path)
		fmt.Printf("VIOLATION property=%s replay=%s class=%q monitor=%s\n", id, rel, v.Class, v.Monitor)
		if os.Getenv("VERIF_VERBOSE") != "" {
			fmt.Printf("  detail: %s\n  case: %s\n  expected: %s\n  observed: %s\n", tail(v.Detail, 1500), tail(string(v.Case), 3000), tail(string(v.Expected), 1500), tail(string(v.Observed), 1500))
		}
	}

	// Required observations.
	if replay == "" {
		for _, c := range p.Required {
			if total.Counters[c] == 0 && len(total.Sets[c]) == 0 {
				inconclusive = append(inconclusive, "required observation missing: "+c)
			}
		}
		if total.Evaluations == 0 {
			inconclusive = append(inconclusive, "no evaluations")
		}
	}

	ntN := int64(len(nt)) + ntOverflow
	// Evidence.
	if replay == "" {
		cov := map[string]any{
			"evaluations":         total.Evaluations,
			"distinct_nontrivial": ntN,
			"rule":                p.Rule,
			"samples":             total.Samples,
			"batches":             len(batches),
			"flavours":            keysOf(flavoursUsed),
			"counters":            total.Counters,
			"build_wall_s":        round1(buildWall.Seconds()),
		}
		if len(total.Maxima) > 0 {
			cov["maxima"] = total.Maxima
		}
		if p.Exhaustive {
			cov["exhaustive"] = true
		}
		for k, s := range total.Sets {
			ks := keysOf(s)
			if len(ks) > 400 {
				cov[k+"_count"] = len(ks)
				ks = ks[:400]
			}
			cov[k] = ks
		}
		if len(inconclusive) > 0 {
			cov["inconclusive"] = inconclusive
		}
		if len(classes) > 0 {
			cov["known_findings_observed"] = knownSeen
		}
		if len(total.Samples) == 0 {
			cov["samples"] = []any{}
		}
		ev := map[string]any{
			"property_id": id, "tier": string(tier), "seed": seed, "level": p.Level,
			"coverage": cov, "assumptions": p.Assumptions, "wall_s": round1(time.Since(t0).Seconds()),
			"violations": len(printed),
		}
		data, _ := json.MarshalIndent(ev, "", " ")
		evDir := filepath.Join(root, "evidence")
		if r := os.Getenv("VERIF_REPO"); r != "" && r != "/repo" {
			// development drill against a scratch copy: keep the evidence of /repo's tree untouched
			evDir = filepath.Join(root, "bin", id+os.Getenv("VERIF_BINTAG"), "evidence")
		}
		os.MkdirAll(evDir, 0o755)
		os.WriteFile(filepath.Join(evDir, id+".json"), append(data, '\n'), 0o644)
	}

	fmt.Printf("%s tier=%s seed=%d evaluations=%d distinct_nontrivial=%d batches=%d violations=%d known=%d wall=%.1fs\n",
		id, tier, seed, total.Evaluations, ntN, len(batches), len(printed), len(classes), time.Since(t0).Seconds())
	if len(printed) > 0 {
		return 1
	}
	if len(inconclusive) > 0 {
		for _, r := range inconclusive {
			fmt.Printf("INCONCLUSIVE property=%s reason=%s\n", id, strings.ReplaceAll(r, "\n", " "))
		}
		return 2
	}
	return 0
}

func keysOf(m map[string]bool) []string {
	out := make([]string, 0, len(m))
	for k := range m {
		out = append(out, k)
	}
	sort.Strings(out)
	return out
}

func round1(f float64) float64 { return float64(int64(f*10+0.5)) / 10 }

func tail(s string, n int) string {
	if len(s) <= n {
		return s
	}
	return "…" + s[len(s)-n:]
}

var _ = bytes.NewReader
