// Package fw is the shared runtime-monitoring framework: property registry, worker context,
// driver (build, spawn, collect, judge), evidence and known-findings handling.
package fw

import (
	"encoding/json"
)

type Tier string

const (
	Quick    Tier = "quick"
	Thorough Tier = "thorough"
)

// Batch is one unit of work executed by one worker process.
type Batch struct {
	Index      int             `json:"index"`
	Flavour    string          `json:"flavour"` // plain | race | nomemo | mphase-race | prefilter | csargs | nomline
	Params     json.RawMessage `json:"params,omitempty"`
	GOMAXPROCS int             `json:"gomaxprocs,omitempty"`
	TimeoutS   int             `json:"timeout_s,omitempty"` // wall-clock watchdog (generous); firing is inconclusive
}

// Prop is a property check.
type Prop struct {
	ID          string
	Level       string // exploration | fault_enumeration
	Rule        string // how cases are generated and what makes one non-trivial
	Assumptions []string
	// Plan lists the batches of a run (driver side; must be deterministic in tier and seed).
	Plan func(tier Tier, seed int64) []Batch
	// Run executes one batch inside a worker.
	Run func(w *W, b Batch)
	// Replay re-executes a single recorded case inside a worker.
	Replay func(w *W, c json.RawMessage)
	// Finish is an optional offline check over the records emitted by all workers (driver side).
	Finish func(d *D)
	// Required counters: if any is zero at the end of a run the verdict is inconclusive.
	Required []string
	// Exhaustive is reported in the evidence when the enumerated part of the space was covered completely.
	Exhaustive bool
}

var registry = map[string]*Prop{}

func Register(p *Prop) { registry[p.ID] = p }

func Lookup(id string) *Prop { return registry[id] }

func IDs() []string {
	var out []string
	for k := range registry {
		out = append(out, k)
	}
	return out
}

// Violation is one refuting observation.
type Violation struct {
	Property string          `json:"property"`
	Class    string          `json:"class"` // coarse signature used for known-finding matching and de-duplication
	Monitor  string          `json:"monitor"`
	Case     json.RawMessage `json:"case,omitempty"`
	Expected json.RawMessage `json:"expected,omitempty"`
	Observed json.RawMessage `json:"observed,omitempty"`
	Detail   string          `json:"detail,omitempty"`
	Seed     int64           `json:"seed"`
	Tier     Tier            `json:"tier"`
	Flavour  string          `json:"flavour"`
	Batch    *Batch          `json:"batch,omitempty"`
}

// Record is a worker-emitted datum for driver-side offline checking.
type Record struct {
	Key     string          `json:"k"`
	Flavour string          `json:"f"`
	Batch   int             `json:"b"`
	Value   json.RawMessage `json:"v"`
}

// line is the JSONL envelope written by workers.
type line struct {
	T    string          `json:"t"` // viol | rec | sum
	Viol *Violation      `json:"viol,omitempty"`
	Rec  *Record         `json:"rec,omitempty"`
	Sum  *Summary        `json:"sum,omitempty"`
	Raw  json.RawMessage `json:"raw,omitempty"`
}

// Summary is what a worker reports at the end of a batch.
type Summary struct {
	Evaluations int64                      `json:"evaluations"`
	Nontrivial  []uint64                   `json:"nontrivial,omitempty"` // structural hashes (capped)
	NontrivialN int64                      `json:"nontrivial_n"`         // distinct count inside the batch
	Counters    map[string]int64           `json:"counters"`
	Maxima      map[string]int64           `json:"maxima,omitempty"`
	Sets        map[string]map[string]bool `json:"sets,omitempty"`
	Samples     []json.RawMessage          `json:"samples,omitempty"`
	Done        bool                       `json:"done"`
}

func mustJSON(v any) json.RawMessage {
	if v == nil {
		return nil
	}
	if r, ok := v.(json.RawMessage); ok {
		return r
	}
	b, err := json.Marshal(v)
	if err != nil {
		b, _ = json.Marshal(map[string]string{"marshal_error": err.Error()})
	}
	return b
}
