#!/usr/bin/env python3
"""Developer helper: confirm a seeded change and (re)write its meta.json.

usage: tools_confirm_seeded.py <src-dir-with-patch.diff,demo,meta.json> <seeded-id> "<check ids>" [--no-suite]

Steps, all in a scratch worktree of /repo HEAD (removed afterwards):
  1. the demonstration passes on the clean tree;
  2. patch applies, mutant builds (also with -tags verif);
  3. the demonstration fails on the mutant;
  4. the repository's own suite still passes on the mutant (apart from the two root-only baseline failures);
  5. each listed check is run against the mutant (VERIF_REPO) at seed 1, quick tier.
Result: /verif/seeded/<seeded-id>/{patch.diff, <demo>, meta.json}
"""
import json, os, shutil, subprocess, sys, time, re

src, sid, checks = sys.argv[1], sys.argv[2], sys.argv[3].split()
suite = "--no-suite" not in sys.argv
dst = f"/verif/seeded/{sid}"
os.makedirs(dst, exist_ok=True)
meta = json.load(open(os.path.join(src, "meta.json")))
# the sub-agents wrote these two fields as free text: keep the path / the command proper
demo_file = (meta.get("demo_file", "") or "").split()[0] if meta.get("demo_file") else ""
demo_cmd = re.sub(r"^cd (<[^>]*>|\S+) && ", "", meta.get("demo_cmd", "") or "")
demo_cmd = re.split(r"\s{2,}\(", demo_cmd)[0].strip()
demo_src = os.path.join(src, os.path.basename(demo_file)) if demo_file else ""
wt = f"/tmp/confirm-wt-{os.getpid()}"
env = dict(os.environ, GOPROXY="off")
for k in ("GOFLAGS", "VERIF_REPO"):
    env.pop(k, None)

def sh(cmd, cwd=None, timeout=3600, e=None):
    p = subprocess.run(cmd, shell=True, cwd=cwd, env=e or env, capture_output=True, text=True, timeout=timeout)
    return p.returncode, (p.stdout + p.stderr)

ran = []
res = {}
subprocess.run(["git", "-C", "/repo", "worktree", "add", "-q", "--detach", wt, "HEAD"], check=True)
try:
    head = subprocess.run(["git", "-C", "/repo", "rev-parse", "--short", "HEAD"], capture_output=True, text=True).stdout.strip()
    if demo_src and os.path.exists(demo_src):
        os.makedirs(os.path.dirname(os.path.join(wt, demo_file)) or wt, exist_ok=True)
        shutil.copy(demo_src, os.path.join(wt, demo_file))
        rc, out = sh(demo_cmd, cwd=wt)
        res["demo_passes_on_clean_tree"] = rc == 0
        ran.append(f"clean tree ({head}): `{demo_cmd}` -> exit {rc}")
    rc, out = sh(f"git apply {src}/patch.diff", cwd=wt)
    res["patch_applies"] = rc == 0
    if rc != 0:
        ran.append("git apply failed: " + out[-300:])
    rc, out = sh("go build ./... && go build -tags verif ./...", cwd=wt)
    res["mutant_builds"] = rc == 0
    ran.append(f"mutant: go build ./... (and -tags verif) -> exit {rc}")
    if demo_src and os.path.exists(demo_src):
        rc, out = sh(demo_cmd, cwd=wt)
        res["demo_fails_on_mutant"] = rc != 0
        ran.append(f"mutant: `{demo_cmd}` -> exit {rc}")
        os.remove(os.path.join(wt, demo_file))
    if suite:
        rc, out = sh("for m in . examples/http-server testing/coreruleset; do (cd $m && go test -vet=off -count=1 -timeout 25m ./... 2>&1); done", cwd=wt, timeout=5400)
        fails = sorted(set(re.findall(r"^--- FAIL: (\S+)", out, re.M)))
        base = {"TestConcurrentWriterFailsOnInit", "TestSerialWriterFailsOnInitForUnexistingFile"}
        extra = [f for f in fails if f not in base]
        # timing-sensitive tests flake under load: re-run what failed beyond the baseline, in isolation
        still = []
        for t in extra:
            top = t.split("/")[0]
            rc2, out2 = sh(f"go test -vet=off -count=1 -run '^{top}$' ./... 2>&1 | grep -E '^(--- FAIL|FAIL|panic)' | head -3", cwd=wt, timeout=1800)
            if out2.strip():
                still.append(t)
        res["repo_suite_passes_on_mutant"] = not still
        ran.append(f"mutant: repository suite (3 modules, tag off): failing beyond the 2 root-only baseline tests: {still or 'none'}" + (f" (flaky under load, passed in isolation: {[t for t in extra if t not in still]})" if extra and not still else ""))
    caught, missed = [], []
    for cid in checks:
        t0 = time.time()
        e = dict(os.environ, VERIF_REPO=wt, VERIF_SEED="1", VERIF_BINTAG=f".c{os.getpid()}")
        rc, out = sh(f"timeout 3600 ./check {cid}", cwd="/verif", e=e, timeout=4000)
        classes = re.findall(r'^VIOLATION property=\S+ replay=\S+ class="([^"]*)"', out, re.M)
        line = [l for l in out.splitlines() if l.startswith(cid + " tier=")]
        ran.append(f"mutant: VERIF_REPO=<mutant> ./check {cid} -> exit {rc} in {int(time.time()-t0)}s; classes: {classes[:4]}")
        (caught if rc == 1 and classes else missed).append(cid)
    res["caught_by"] = caught
    res["missed_by"] = missed
finally:
    subprocess.run(["git", "-C", "/repo", "worktree", "remove", "--force", wt])
    for cid in checks:
        shutil.rmtree(f"/verif/bin/{cid}.c{os.getpid()}", ignore_errors=True)

shutil.copy(os.path.join(src, "patch.diff"), os.path.join(dst, "patch.diff"))
if demo_src and os.path.exists(demo_src):
    shutil.copy(demo_src, os.path.join(dst, os.path.basename(demo_file)))
out = {
    "property": meta.get("property"),
    "summary": meta.get("summary"),
    "needs": meta.get("needs"),
    "demo_file": demo_file,
    "demo_cmd": demo_cmd,
    "source": "written by a fresh sub-agent that was given only the property text and a scratch worktree",
    "confirmed": res,
    "ran": ran,
}
json.dump(out, open(os.path.join(dst, "meta.json"), "w"), indent=1)
print(sid, json.dumps(res))
