#!/bin/bash
# developer helper: ./tools_seeded.sh <seeded-dir> "<check ids>" [seed]
# Applies <seeded-dir>/patch.diff to a scratch worktree of /repo HEAD, confirms the demonstration
# (passes without, fails with), runs the given checks against the mutated tree via VERIF_REPO and prints
# a summary. The worktree is removed afterwards.
set -u
dir=$(readlink -f "$1"); ids="$2"; seed=${3:-1}
wt=/tmp/seeded-wt-$$
git -C /repo worktree add -q --detach "$wt" HEAD || exit 3
trap 'git -C /repo worktree remove --force "$wt" >/dev/null 2>&1' EXIT
demo_file=$(python3 -c "import json,sys;print(json.load(open('$dir/meta.json')).get('demo_file',''))")
demo_cmd=$(python3 -c "import json,sys;print(json.load(open('$dir/meta.json')).get('demo_cmd',''))")
export GOPROXY=off
if [ -n "$demo_file" ] && [ -f "$dir/$(basename "$demo_file")" ]; then
  mkdir -p "$wt/$(dirname "$demo_file")"; cp "$dir/$(basename "$demo_file")" "$wt/$demo_file"
  (cd "$wt" && eval "$demo_cmd" >/tmp/seeded-demo-clean.$$ 2>&1); echo "demo on clean tree: rc=$? (want 0)"
fi
if ! git -C "$wt" apply "$dir/patch.diff"; then echo "PATCH DOES NOT APPLY"; exit 4; fi
(cd "$wt" && go build ./... ) && echo "mutant builds"
if [ -n "$demo_file" ] && [ -f "$wt/$demo_file" ]; then
  (cd "$wt" && eval "$demo_cmd" >/tmp/seeded-demo-mut.$$ 2>&1); echo "demo on mutant: rc=$? (want non-zero)"
  rm -f "$wt/$demo_file"
fi
if [ "${SEEDED_SUITE:-1}" = 1 ]; then
  (cd "$wt" && go test -count=1 ./... 2>&1 | grep -E '^(FAIL|---)' | grep -v 'TestConcurrentWriterFailsOnInit\|TestSerialWriterFailsOnInitForUnexistingFile\|internal/auditlog' | head -5 > /tmp/seeded-suite.$$; if [ -s /tmp/seeded-suite.$$ ]; then echo "repo suite on mutant: FAILURES:"; cat /tmp/seeded-suite.$$; else echo "repo suite on mutant: passes (baseline failures only)"; fi)
fi
cd /verif
for id in $ids; do
  t0=$(date +%s)
  out=$(VERIF_REPO="$wt" VERIF_SEED=$seed timeout 3600 ./check $id 2>&1 | grep -E '^(VIOLATION|KNOWN|INCONCLUSIVE|C[0-9]+ tier)' | head -6 | cut -c1-220)
  echo "--- check $id on mutant ($(( $(date +%s)-t0 ))s):"; echo "$out"
done
rm -f /tmp/seeded-*.$$
