#!/usr/bin/env python3
"""Developer helper: regenerates the seeded-change table inside DESIGN.md (between the two markers)."""
import subprocess, re
t = subprocess.run(["python3", "/verif/tools_seeded_table.py"], capture_output=True, text=True).stdout
p = "/verif/DESIGN.md"
s = open(p).read()
s = re.sub(r"<!-- seeded-table:begin -->.*<!-- seeded-table:end -->", "<!-- seeded-table:begin -->\n" + t + "<!-- seeded-table:end -->", s, flags=re.S)
open(p, "w").write(s)
print(t.count("\n") - 2, "rows")
