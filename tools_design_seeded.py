#!/usr/bin/env python3
"""Developer helper: regenerates the seeded-change table inside DESIGN.md (between the two markers)."""
import subprocess, re
t = subprocess.run(["python3", "/verif/tools_seeded_table.py"], capture_output=True, text=True).stdout
p = "/verif/DESIGN.md"
s = open(p).read()
a, b = s.index("<!-- seeded-table:begin -->"), s.index("<!-- seeded-table:end -->")
s = s[:a] + "<!-- seeded-table:begin -->\n" + t + s[b:]
open(p, "w").write(s)
print(t.count("\n") - 2, "rows")
