#!/usr/bin/env python3
"""Developer helper: record in seeded/<id>/meta.json that a check which missed the change catches it after
being strengthened.  usage: tools_seeded_recheck.py <seeded-id> <check> <drill-log written by tools_seeded.sh>"""
import json, re, subprocess, sys
sid, cid, log = sys.argv[1:4]
out = open(log).read()
classes = re.findall(r'^VIOLATION property=%s replay=\S+ class="([^"]*)"' % cid, out, re.M)
if not classes:
    sys.exit(f"{sid}: no VIOLATION of {cid} in {log}")
p = f"/verif/seeded/{sid}/meta.json"
m = json.load(open(p))
c = m["confirmed"]
if cid in c.get("missed_by", []):
    c["missed_by"].remove(cid)
if cid not in c["caught_by"]:
    c["caught_by"].append(cid)
head = subprocess.run(["git", "-C", "/verif", "rev-parse", "--short", "HEAD"], capture_output=True, text=True).stdout.strip()
m["ran"].append(f"after the check was strengthened (/verif {head}): mutant: VERIF_REPO=<mutant> ./check {cid} -> exit 1; classes: {classes[:4]}")
json.dump(m, open(p, "w"), indent=1)
print(sid, c)
