#!/usr/bin/env python3
"""Developer helper: prints the markdown table of /verif/seeded/*/meta.json for DESIGN.md."""
import json, glob, os
rows=[]
for f in sorted(glob.glob('/verif/seeded/*/meta.json')):
    m=json.load(open(f)); sid=os.path.basename(os.path.dirname(f)); c=m.get('confirmed',{})
    ok = all(c.get(k) for k in ('demo_passes_on_clean_tree','mutant_builds','demo_fails_on_mutant')) and c.get('repo_suite_passes_on_mutant', True)
    rows.append((sid, m.get('property'), (m.get('needs') or '')[:140].replace('\n',' ').replace('|','/'), ', '.join(c.get('caught_by',[])) or '—', ', '.join(c.get('missed_by',[])) or '—', 'yes' if ok else 'NO'))
print('| seeded change | property | needs (abridged) | caught by | not caught by | confirmed |')
print('|---|---|---|---|---|---|')
for r in rows: print('| '+' | '.join(str(x) for x in r)+' |')
