# Table of claimed checks, read by tools_manifest.py.
NOT_CLAIMED = {}
CHECKS = {
 "C01": {"technique": "runtime monitoring: generated rule sets x requests through the real engine, outcomes judged online by an independent reference interpreter (plus RuleEval hook events and a recording operator)",
         "text": "Held on the executions produced: every generated (rule set, request) pair that the reference interpreter can decide unambiguously is run 3 times through the real engine and compared on fired ids, matched-triple multisets, operator inputs, evaluated-rule lists and TX. Not a proof: reach is the generated population (sizes in the evidence).",
         "note": "Trusted base: the reference interpreter in internal/sl/model.go (written from the property statement), Go's regexp for regex keys and @rx, the structured->text renderer. Ambiguous constructs are skipped and counted, not judged."},
}
