#!/usr/bin/env python3
"""Regenerates MANIFEST.json from the table below (developer helper; the manifest itself is committed)."""
import json, subprocess, os
HOOK_COMMITS = subprocess.run(["git","-C","/repo","log","--format=%h %s"],capture_output=True,text=True).stdout.splitlines()
hooks=[l.split()[0] for l in HOOK_COMMITS if l.split(' ',1)[1].startswith('verif hooks:')]
CHECKS = {}
exec(open(os.path.join(os.path.dirname(__file__),'manifest_checks.py')).read())
props=[json.loads(l) for l in open('/verif/properties.jsonl')]
checks=[]; na=[]
for p in props:
    pid=p['id']
    if pid in CHECKS:
        c=CHECKS[pid]
        checks.append({
          "property_id": pid,
          "quick_cmd": f"./check {pid} --tier quick",
          "thorough_cmd": f"./check {pid} --tier thorough",
          "evidence_file": f"/verif/evidence/{pid}.json",
          "replay_cmd_template": f"./check {pid} --replay {{path}}",
          "engine": "verif-go",
          "level_claimed": {"category": c.get("level","exploration"), "text": c["text"], "design_ref": f"DESIGN.md §5 {pid}"},
          "level_note": c["note"],
          "technique": c["technique"],
        })
    else:
        na.append({"property_id": pid, "reason": NOT_CLAIMED.get(pid, "check not built yet in this session; not claimed")})
m={"version":1,
 "setup_cmd":"cd /verif && export GOFLAGS=-mod=mod GOPROXY=off && mkdir -p bin/setup && go build -tags verif -o bin/setup/verif.plain ./cmd/verif && go build -tags verif -race -o bin/setup/verif.race ./cmd/verif && go build -tags 'verif coraza.no_memoize' -o bin/setup/verif.nomemo ./cmd/verif && go build -tags 'verif coraza.rule.case_sensitive_args_keys' -o bin/setup/verif.csargs ./cmd/verif && go build -tags 'verif coraza.rule.no_regex_multiline' -o bin/setup/verif.nomline ./cmd/verif",
 "hooks":{"guard":"verif","enable":"go build -tags verif (every ./check invocation rebuilds cmd/verif against /repo's working tree through the replace directive in /verif/go.mod)",
   "baseline_off_cmd":"cd /repo && export GOPROXY=off && for m in . examples/http-server testing/coreruleset; do (cd $m && go test -vet=off -count=1 -timeout 25m ./...); done",
   "source_commits":hooks,"add_only":True},
 "engines":[{"name":"verif-go","path":"/verif/cmd/verif","serves_properties":sorted(CHECKS.keys()),"kind_free_text":"Go driver/worker: generated workloads through the real library under monitors (reference model, differential runs, hook events, race detector, failpoints); child process per batch"}],
 "checks":checks,
 "notes":"Runtime monitoring only. Exit codes: 0 held, 1 violation (VIOLATION line), 2 inconclusive (INCONCLUSIVE line, never a VIOLATION line). VERIF_SEED selects the PRNG stream; case-list sizes are fixed per tier.",
 "not_applicable":na}
json.dump(m,open('/verif/MANIFEST.json','w'),indent=1)
print(len(checks),'checks,',len(na),'not claimed')
