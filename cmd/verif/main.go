// Command verif is both the driver (`verif drive <id>`) and the worker (`verif work …`)
// of the runtime-monitoring checks. It is rebuilt from /repo's working tree by ./check.
package main

import (
	"fmt"
	"os"

	"verif/internal/fw"
	_ "verif/internal/props"
)

func main() {
	if len(os.Args) < 2 {
		fmt.Fprintln(os.Stderr, "usage: verif drive|work …")
		os.Exit(3)
	}
	switch os.Args[1] {
	case "drive":
		os.Exit(fw.DriverMain(os.Args[2:]))
	case "work":
		os.Exit(fw.WorkerMain(os.Args[2:]))
	case "list":
		for _, id := range fw.IDs() {
			fmt.Println(id)
		}
	default:
		fmt.Fprintln(os.Stderr, "unknown subcommand", os.Args[1])
		os.Exit(3)
	}
}
