#!/usr/bin/env python3
# developer helper: print replay files compactly
import json,sys,glob
for f in sys.argv[1:]:
    v=json.load(open(f))
    print('=====',f, v['class'])
    print(v.get('detail','')[:1500])
    c=v.get('case') or {}
    if 'text' in c: print(c['text'])
    if 'req' in c: print(json.dumps(c['req']))
    for k in c:
        if k not in('text','req','program'): print(k, json.dumps(c[k])[:1500])
